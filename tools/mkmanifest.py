#!/usr/bin/env python3
"""Regenerate MANIFEST.json from the property table (tools/props.py)."""
import json, os, sys
sys.path.insert(0, os.path.dirname(__file__))
import props

ALL = ["C%02d" % i for i in range(1, 21)]
VERIF = os.path.abspath(os.path.join(os.path.dirname(__file__), ".."))
hooks_commits = ["1d5ceba"]

# what the checks add beyond the single-threaded correspondence (DESIGN.md 3.4, 4.6)
MT = " Real parallelism is reached only by supporting stress probes judged by model-free rules (mt_stress and the probes named in DESIGN.md 4.6), never by a theorem."
CHAN = " The gap between obtaining a mailbox permit and pushing is modelled separately (Model/Chan.v, DESIGN.md 3.4): its theorems hold for every interleaving at that grain, its tokio assumptions are compared with the real channel on every run (chan_probe), and the exit protocol it is parameterised by is read from the source by the translator."
SUFFIX = {"C01": CHAN + MT, "C02": CHAN + MT, "C03": CHAN + MT, "C09": CHAN, "C04": MT, "C05": MT, "C07": MT, "C11": MT,
          "C12": MT, "C13": MT, "C15": MT, "C20": MT}

checks = []
for pid in ALL:
    if pid not in props.PROPS:
        continue
    c = props.PROPS[pid]
    checks.append(dict(
        property_id=pid,
        quick_cmd="python3 tools/check.py %s --tier quick" % pid,
        thorough_cmd="python3 tools/check.py %s --tier thorough" % pid,
        evidence_file="evidence/%s.json" % pid,
        replay_cmd_template="python3 tools/check.py %s --replay {path}" % pid,
        engine="rocq-model",
        level_claimed=dict(category=c.get("level", "proof"),
                           text=c.get("level_text", "Theorems about the Rocq model of the actor loop, proved for all states/schedules (Props/%s.v), tied to /repo by the regenerated Gen/Shape.v and by model acceptance of every round observed on the real implementation." % pid),
                           design_ref=c.get("design_ref", "DESIGN.md section 6 (%s)" % pid)),
        level_note=c.get("level_note", "Trusted: Coq kernel, extraction (ExtrOcamlBasic), OCaml driver, translator, Rust harness; tokio primitives are modelled, not verified; single-threaded poll-atomic correspondence (DESIGN.md section 8).") + SUFFIX.get(pid, ""),
        technique=c.get("technique", "machine-checked proof in Rocq (Coq 8.16.1) of a hand-written LTS model + executable correspondence check (extracted model accepts real traces) + source-to-Coq translator for structural facts"),
    ))

na = []
for pid in ALL:
    if pid not in props.PROPS:
        na.append(dict(property_id=pid, reason=props.NOT_YET.get(pid, "check not built yet in this round (planned, DESIGN.md section 6); no claim is made")))

m = dict(
    version=1,
    setup_cmd="sh tools/setup.sh",
    hooks=dict(guard="--cfg rsactor_verif",
               enable='RUSTFLAGS="--cfg rsactor_verif" (set by tools/vlib.py when it builds harness/ against /repo)',
               baseline_off_cmd="cd /repo && cargo test --workspace --no-fail-fast --offline",
               source_commits=hooks_commits, add_only=True),
    engines=[dict(name="rocq-model", path="coq/ ocaml/ harness/ tools/", serves_properties=[c["property_id"] for c in checks],
                  kind_free_text="Rocq LTS model + proofs; extracted OCaml model runner; Rust director harness on the real crate; Python orchestration")],
    checks=checks,
    notes="See DESIGN.md. KNOWN_FINDINGS.txt lists recorded genuine defects.",
    not_applicable=na,
)
json.dump(m, open(os.path.join(VERIF, "MANIFEST.json"), "w"), indent=1)
print("manifest: %d checks, %d not claimed" % (len(checks), len(na)))
