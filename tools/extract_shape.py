#!/usr/bin/env python3
"""Translator: reads structural facts from /repo's current source and regenerates coq/Gen/Shape.v.

Facts (DESIGN.md section 5): bias / branch order / guard of the actor loop's select!, channel
capacities, the table of dead_letter::record call sites, which wrapper calls which inner operation,
the variants matched by Error::is_retryable, the forwarding tables of handler.rs/actor_control.rs.

A fact whose fragment cannot be recognised falls back to the committed default and is reported in
the JSON summary under "unparsed" (the check then relies on the dynamic tie for it).  A fragment that
is recognised but says something else is emitted as it is -- the proofs then break.
"""
import json
import os
import re
import sys

REPO = os.environ.get("VERIF_REPO", "/repo")


def strip_comments(src):
    out = []
    i, n = 0, len(src)
    while i < n:
        c = src[i]
        if src.startswith("//", i):
            j = src.find("\n", i)
            i = n if j < 0 else j
        elif src.startswith("/*", i):
            j = src.find("*/", i + 2)
            i = n if j < 0 else j + 2
        elif c == '"':
            j = i + 1
            while j < n and src[j] != '"':
                j += 2 if src[j] == "\\" else 1
            out.append(src[i:j + 1])
            i = j + 1
        elif c == "'" and i + 2 < n and (src[i + 2] == "'" or (src[i + 1] == "\\" and i + 3 < n and src[i + 3] == "'")):
            j = src.find("'", i + 2 if src[i + 1] != "\\" else i + 3)
            out.append(src[i:j + 1])
            i = j + 1
        else:
            out.append(c)
            i += 1
    return "".join(out)


def match_brace(s, i, open_c="{", close_c="}"):
    """s[i] is an opening bracket; return index of its match."""
    depth = 0
    j = i
    n = len(s)
    while j < n:
        c = s[j]
        if c == '"':
            j += 1
            while j < n and s[j] != '"':
                j += 2 if s[j] == "\\" else 1
        elif c == open_c:
            depth += 1
        elif c == close_c:
            depth -= 1
            if depth == 0:
                return j
        j += 1
    return -1


def fn_body(src, name):
    """Body text (between braces) and the parameter list of `fn name`."""
    m = re.search(r"\bfn\s+" + re.escape(name) + r"\b\s*(<[^{;]*?>)?\s*\(", src)
    if not m:
        return None, None
    p0 = src.index("(", m.end() - 1)
    p1 = match_brace(src, p0, "(", ")")
    b0 = src.find("{", p1)
    b1 = match_brace(src, b0)
    if b0 < 0 or b1 < 0:
        return None, None
    return src[b0 + 1:b1], src[p0 + 1:p1]


def split_top(s, sep=","):
    parts, depth, cur = [], 0, []
    i = 0
    while i < len(s):
        c = s[i]
        if c in "([{<" and not (c == "<" and (i == 0 or s[i - 1] in " =")):
            depth += 1
        elif c in ")]}>" and not (c == ">" and i > 0 and s[i - 1] in "=-"):
            depth -= 1
        if c == sep and depth == 0:
            parts.append("".join(cur))
            cur = []
        else:
            cur.append(c)
        i += 1
    if "".join(cur).strip():
        parts.append("".join(cur))
    return parts


DEFAULTS = {
    "select_biased": True,
    "select_order": ["BTerm", "BMail", "BRun"],
    "run_guarded": True,
    "term_capacity": 1,
    "default_capacity": 32,
    "mailbox_capacity_is_param": True,
    "dead_letter_sites": [
        ("FTell", "CxSend", "DActorStopped", "LbTell"),
        ("FTellTo", "CxElapsed", "DTimeout", "LbTell"),
        ("FAsk", "CxSend", "DActorStopped", "LbAsk"),
        ("FAsk", "CxReply", "DReplyDropped", "LbAsk"),
        ("FAskTo", "CxElapsed", "DTimeout", "LbAsk"),
        ("FBTell", "CxSend", "DActorStopped", "LbBlockingTell"),
        ("FBTellTo", "CxElapsed", "DTimeout", "LbBlockingTell"),
        ("FBAsk", "CxSend", "DActorStopped", "LbBlockingAsk"),
        ("FBAsk", "CxReply", "DReplyDropped", "LbBlockingAsk"),
        ("FBAskTo", "CxElapsed", "DTimeout", "LbBlockingAsk"),
    ],
    "wrapper_inner": [("FTellTo", "FTell"), ("FAskTo", "FAsk"), ("FBTellTo", "FTell"), ("FBAskTo", "FAsk")],
    "retryable": ["ETimeout"],
    "exit_waits_for_permits": True,
    "exit_on_unwind": True,
}

unparsed = []


def read(rel):
    with open(os.path.join(REPO, rel)) as f:
        return strip_comments(f.read())


# ------------------------------------------------------------------ select!
def extract_select(facts):
    try:
        src = read("src/actor.rs")
        # the loop lives in actor_lifecycle_body (run_actor_lifecycle wraps it to drain the mailbox
        # on every exit path); older trees have it in run_actor_lifecycle itself
        body, params = fn_body(src, "actor_lifecycle_body")
        if body is None or "select!" not in body:
            body, params = fn_body(src, "run_actor_lifecycle")
        if body is None:
            raise ValueError("run_actor_lifecycle not found")
        term = mail = None
        for p in split_top(params):
            m = re.match(r"\s*(?:mut\s+)?(\w+)\s*:\s*(.*)", p.strip(), re.S)
            if not m:
                continue
            ty = re.sub(r"\s+", "", m.group(2))
            if "Receiver<ControlSignal>" in ty:
                term = m.group(1)
            elif "Receiver<MailboxMessage<" in ty:
                mail = m.group(1)
        if not term or not mail:
            raise ValueError("receiver parameters not found")
        sels = [m.start() for m in re.finditer(r"select!\s*\{", body)]
        if len(sels) != 1:
            raise ValueError("expected exactly one select! in the lifecycle")
        b0 = body.index("{", sels[0])
        b1 = match_brace(body, b0)
        sel = body[b0 + 1:b1]
        biased = bool(re.match(r"\s*biased\s*;", sel))
        sel = re.sub(r"^\s*biased\s*;", "", sel)
        # split branches: each ends with its body block `=> { ... }`
        order, guarded = [], None
        i = 0
        while True:
            arrow = -1
            depth = 0
            j = i
            while j < len(sel) - 1:
                c = sel[j]
                if c in "([{":
                    depth += 1
                elif c in ")]}":
                    depth -= 1
                elif depth == 0 and sel.startswith("=>", j):
                    arrow = j
                    break
                j += 1
            if arrow < 0:
                break
            head = sel[i:arrow]
            k = arrow + 2
            while sel[k].isspace():
                k += 1
            if sel[k] != "{":
                raise ValueError("branch body is not a block")
            e = match_brace(sel, k)
            i = e + 1
            while i < len(sel) and (sel[i].isspace() or sel[i] == ","):
                i += 1
            hs = re.sub(r"\s+", "", head)
            g = bool(re.search(r",\s*if\b", head))
            # the branch future must be exactly the receive / the on_run call: anything wrapped
            # around it (an async block, a helper) can suspend before looking at the channel
            if re.fullmatch(r"\w+=" + term + r"\.recv\(\)", hs):
                order.append("BTerm")
            elif re.fullmatch(r"\w+=" + mail + r"\.recv\(\)", hs):
                order.append("BMail")
            elif re.fullmatch(r"\w+=(with_actor_scope!\(\w+,)?\w+\.on_run\(&?\w+\)(\.instrument\(\w+\))?\)?(,if\w+)?", hs):
                order.append("BRun")
                guarded = g
            else:
                raise ValueError("unrecognised select branch: " + hs[:60])
        if sorted(order) != ["BMail", "BRun", "BTerm"]:
            raise ValueError("branches found: %r" % order)
        facts["select_biased"] = biased
        facts["select_order"] = order
        facts["run_guarded"] = bool(guarded)
    except Exception as ex:  # noqa
        unparsed.append("select: %s" % ex)


# ------------------------------------------------------------------ capacities
def extract_caps(facts):
    try:
        src = read("src/lib.rs")
        m = re.search(r"channel\s*::\s*<\s*ControlSignal\s*>\s*\(\s*(\d+)\s*\)", src)
        if not m:
            raise ValueError("termination channel not found")
        facts["term_capacity"] = int(m.group(1))
        m = re.search(r"DEFAULT_MAILBOX_CAPACITY\s*:\s*usize\s*=\s*([\d_]+)\s*;", src)
        if not m:
            raise ValueError("DEFAULT_MAILBOX_CAPACITY not found")
        facts["default_capacity"] = int(m.group(1).replace("_", ""))
        body, params = fn_body(src, "spawn_with_mailbox_capacity")
        pname = None
        for p in split_top(params):
            mm = re.match(r"\s*(\w+)\s*:\s*usize\s*$", p.strip())
            if mm:
                pname = mm.group(1)
        mm = re.search(r"=\s*mpsc\s*::\s*channel\s*\(([^;]*?)\)\s*;", body)
        if not pname or not mm:
            raise ValueError("mailbox channel creation not found")
        facts["mailbox_capacity_is_param"] = mm.group(1).strip() == pname
        # spawn(): configured value else the constant
        sb, _ = fn_body(src, "spawn")
        if sb is None or "unwrap_or(DEFAULT_MAILBOX_CAPACITY)" not in re.sub(r"\s+", "", sb):
            facts["mailbox_capacity_is_param"] = False
    except Exception as ex:  # noqa
        unparsed.append("capacities: %s" % ex)


# ------------------------------------------------------------------ dead letters
FN_MAP = {
    "tell": "FTell", "tell_with_timeout": "FTellTo", "ask": "FAsk", "ask_with_timeout": "FAskTo",
    "blocking_tell_no_timeout": "FBTell", "blocking_tell_with_timeout_impl": "FBTellTo",
    "blocking_ask_no_timeout": "FBAsk", "blocking_ask_with_timeout_impl": "FBAskTo",
}
REASON = {"ActorStopped": "DActorStopped", "Timeout": "DTimeout", "ReplyDropped": "DReplyDropped"}
LABEL = {"tell": "LbTell", "ask": "LbAsk", "blocking_tell": "LbBlockingTell", "blocking_ask": "LbBlockingAsk"}


def extract_dead_letters(facts):
    try:
        src = read("src/actor_ref.rs")
        total = len(re.findall(r"dead_letter\s*::\s*record\s*::", src))
        sites, inner, seen = [], [], 0
        for name, fn in FN_MAP.items():
            body, _ = fn_body(src, name)
            if body is None:
                raise ValueError("fn %s not found" % name)
            for m in re.finditer(r"dead_letter\s*::\s*record\s*::\s*<[^>]*>\s*\(", body):
                seen += 1
                p0 = body.index("(", m.end() - 1)
                p1 = match_brace(body, p0, "(", ")")
                args = [a.strip() for a in split_top(body[p0 + 1:p1]) if a.strip()]
                if len(args) != 3:
                    raise ValueError("record call with %d args in %s" % (len(args), name))
                rm = re.search(r"DeadLetterReason\s*::\s*(\w+)", args[1])
                lm = re.match(r'"(\w+)"$', args[2])
                if not rm or not lm:
                    raise ValueError("record args not literal in %s" % name)
                before = body[:m.start()]
                marks = {
                    "CxSend": max(before.rfind(".send("), before.rfind("blocking_send(")),
                    "CxReply": before.rfind("reply_rx"),
                    "CxElapsed": before.rfind("timeout("),
                }
                ctx = max(marks, key=lambda k: marks[k])
                if marks[ctx] < 0:
                    raise ValueError("no context for record call in %s" % name)
                sites.append((fn, ctx, REASON.get(rm.group(1), "DActorStopped" if False else None), LABEL.get(lm.group(1), "LbOther")))
                if sites[-1][2] is None:
                    raise ValueError("unknown reason %s" % rm.group(1))
            if fn in ("FTellTo", "FAskTo", "FBTellTo", "FBAskTo"):
                mm = re.search(r"timeout\s*\(\s*\w+\s*,\s*(\w+)\s*\.\s*(\w+)\s*\(\s*\w+\s*\)\s*\)", body)
                if not mm or mm.group(2) not in ("tell", "ask"):
                    raise ValueError("wrapper %s does not wrap tell/ask" % name)
                inner.append((fn, FN_MAP[mm.group(2)]))
        if seen != total:
            raise ValueError("%d record calls outside the known send paths" % (total - seen))
        facts["dead_letter_sites"] = sites
        facts["wrapper_inner"] = inner
    except Exception as ex:  # noqa
        unparsed.append("dead_letters: %s" % ex)


# ------------------------------------------------------------------ retryable
def extract_retryable(facts):
    try:
        src = read("src/error.rs")
        body, _ = fn_body(src, "is_retryable")
        m = re.search(r"matches!\s*\(\s*self\s*,(.*)\)\s*$", body.strip(), re.S)
        if not m:
            raise ValueError("is_retryable is not a matches!")
        vs = re.findall(r"Error\s*::\s*(\w+)", m.group(1))
        mp = {"Send": "ESend", "Receive": "EReceive", "Timeout": "ETimeout"}
        out = []
        for v in vs:
            if v not in mp:
                raise ValueError("retryable variant %s outside the model" % v)
            out.append(mp[v])
        facts["retryable"] = out
    except Exception as ex:  # noqa
        unparsed.append("retryable: %s" % ex)


# ------------------------------------------------------------------ forwarders
TRAITS = {"TellHandler": "TTell", "AskHandler": "TAsk", "WeakTellHandler": "TWeakTell",
          "WeakAskHandler": "TWeakAsk", "ActorControl": "TControl", "WeakActorControl": "TWeakControl"}
METHS = {"tell": "MTell", "tell_with_timeout": "MTellTo", "blocking_tell": "MBlockingTell", "ask": "MAsk",
         "ask_with_timeout": "MAskTo", "blocking_ask": "MBlockingAsk", "clone_boxed": "MCloneBoxed",
         "downgrade": "MDowngrade", "upgrade": "MUpgrade", "as_control": "MAsControl",
         "as_weak_control": "MAsWeakControl", "identity": "MIdentity", "is_alive": "MIsAlive",
         "stop": "MStop", "kill": "MKill", "clone": "MClone"}


def parse_impls(src, facts_f, facts_c):
    for m in re.finditer(r"\bimpl\b\s*(<[^{]*?>)?\s*([\w:<>,\s&']+?)\s+for\s+([\w:<>,\s&'()]+?)\s*(where[^{]*)?\{", src):
        trait_s = re.sub(r"\s+", "", m.group(2))
        for_s = re.sub(r"\s+", "", m.group(3))
        b0 = m.end() - 1
        b1 = match_brace(src, b0)
        body = src[b0 + 1:b1]
        tname = re.match(r"(\w+)", trait_s).group(1)
        if tname in TRAITS and for_s.startswith(("ActorRef<", "ActorWeak<")):
            recv = "OnRef" if for_s.startswith("ActorRef<") else "OnWeak"
            base = "ActorRef" if recv == "OnRef" else "ActorWeak"
            for fm in re.finditer(r"\bfn\s+(\w+)\s*(<[^(]*>)?\s*\(", body):
                name = fm.group(1)
                if name == "debug_fmt":
                    continue
                p0 = body.index("(", fm.end() - 1)
                p1 = match_brace(body, p0, "(", ")")
                params = [p.strip() for p in split_top(body[p0 + 1:p1]) if p.strip()]
                pnames = []
                for p in params:
                    if p in ("&self", "self", "&mutself", "&mut self"):
                        continue
                    pnames.append(p.split(":")[0].strip())
                f0 = body.find("{", p1)
                f1 = match_brace(body, f0)
                fb = re.sub(r"\s+", "", body[f0 + 1:f1])
                want_args = ",".join(["self"] + pnames)
                target, verb, wrap = "MOther", False, "WUnknown"
                mm = re.match(r"^(Box::new\()?" + base + r"::(\w+)\(([^()]*)\)(\))?(\.boxed\(\))?(\.map\(\|(\w+)\|Box::new\(\7\)asBox<dyn[^|]*\))?$", fb)
                if fb == "self":
                    target, verb, wrap = METHS.get(name, "MOther"), True, "WSelf"
                elif fb == "Box::new(self.clone())":
                    target, verb, wrap = "MClone", True, "WBoxNew"
                elif mm:
                    target = METHS.get(mm.group(2), "MOther")
                    verb = mm.group(3) == want_args
                    boxnew, closep, boxed, mapped = mm.group(1), mm.group(4), mm.group(5), mm.group(6)
                    if boxnew and closep and not boxed and not mapped:
                        wrap = "WBoxNew"
                    elif not boxnew and not closep and boxed and not mapped:
                        wrap = "WFutBoxed"
                    elif not boxnew and not closep and not boxed and mapped:
                        wrap = "WMapBox"
                    elif not boxnew and not closep and not boxed and not mapped:
                        wrap = "WPlain"
                else:
                    # `self.method()` style used by debug only; anything else is unknown
                    mm2 = re.match(r"^self\.(\w+)\(\)$", fb)
                    if mm2:
                        target, verb, wrap = METHS.get(mm2.group(1), "MOther"), True, "WPlain"
                facts_f.append((TRAITS[tname], METHS.get(name, "MOther"), recv, target, verb, wrap))
        elif tname == "From":
            fm = re.match(r"From<(&?)(ActorRef|ActorWeak)<\w+>>$", trait_s)
            tm = re.match(r"Box<dyn(\w+)(<.*>)?>$", for_s)
            if fm and tm and tm.group(1) in TRAITS:
                fb0 = body.find("{", body.find("fn from"))
                fb1 = match_brace(body, fb0)
                pm = re.search(r"fn\s+from\s*\(\s*(\w+)\s*:", body)
                arg = pm.group(1) if pm else "?"
                fb = re.sub(r"\s+", "", body[fb0 + 1:fb1])
                if fb == "Box::new(%s)" % arg:
                    mode = "CvMove"
                elif fb == "Box::new(%s.clone())" % arg:
                    mode = "CvClone"
                else:
                    mode = "CvOther"
                facts_c.append(("OnRef" if fm.group(2) == "ActorRef" else "OnWeak", bool(fm.group(1)), TRAITS[tm.group(1)], mode))


def extract_forwarders(facts):
    try:
        f, c = [], []
        parse_impls(read("src/handler.rs"), f, c)
        parse_impls(read("src/actor_control.rs"), f, c)
        if not f or not c:
            raise ValueError("no forwarders/conversions recognised")
        facts["forwarders"] = f
        facts["conversions"] = c
    except Exception as ex:  # noqa
        unparsed.append("forwarders: %s" % ex)


# ------------------------------------------------------------------ exit protocol of the actor task
def extract_exit(facts):
    """How the actor task leaves its mailbox (Model/Chan.v, parameter [waits] of cstep):
    run_actor_lifecycle must await the lifecycle body under catch_unwind, then close the receiver
    and loop { drain with try_recv; leave when capacity() == max_capacity(); yield }, then resume
    the panic.  Recognised alternatives: the loop without the permit test, or no shutdown code at
    all (the tree before the fix) give exit_waits_for_permits = false; anything else is unparsed."""
    try:
        src = read("src/actor.rs")
        body, _ = fn_body(src, "run_actor_lifecycle")
        if body is None:
            raise ValueError("run_actor_lifecycle not found")
        w = re.sub(r"\s+", "", body)
        if "select!" in w:
            # the old layout: the whole lifecycle is in this function and the receiver is simply
            # closed and dropped at its end
            facts["exit_waits_for_permits"] = False
            facts["exit_on_unwind"] = False
            return
        m = re.match(r"^(?:usefutures::FutureExt;)?letoutcome=(?:std::panic::)?AssertUnwindSafe\(actor_lifecycle_body\("
                     r"args,actor_ref,&mut(\w+),&mut(\w+),?\)\)\.catch_unwind\(\)\.await;(.*)"
                     r"matchoutcome\{Ok\((\w+)\)=>\4,Err\((\w+)\)=>(?:std::panic::)?resume_unwind\(\5\),?\}$", w, re.S)
        if not m:
            raise ValueError("run_actor_lifecycle is not `catch_unwind(body).await; <shutdown>; match outcome {..}`")
        rx, mid = m.group(1), m.group(3)
        facts["exit_on_unwind"] = True
        R = re.escape(rx)
        drain = r"while%s\.try_recv\(\)\.is_ok\(\)\{\}" % R
        test = r"if%s\.capacity\(\)==%s\.max_capacity\(\)\{break;\}" % (R, R)
        yld = r"tokio::task::yield_now\(\)\.await;"
        if re.match(r"^%s\.close\(\);loop\{%s%s%s\}$" % (R, drain, test, yld), mid):
            facts["exit_waits_for_permits"] = True
        elif re.match(r"^%s\.close\(\);%s$" % (R, drain), mid) or re.match(r"^%s\.close\(\);$" % R, mid) or mid == "":
            facts["exit_waits_for_permits"] = False
        else:
            raise ValueError("shutdown code between catch_unwind and `match outcome` not recognised: %s" % mid[:200])
    except Exception as ex:  # noqa
        unparsed.append("exit: %s" % ex)


def coq_bool(b):
    return "true" if b else "false"


def emit(facts, path):
    L = []
    L.append("(* GENERATED by tools/extract_shape.py from %s -- do not edit. *)" % REPO)
    L.append("From RS Require Import Base.")
    L.append("Definition select_biased : bool := %s." % coq_bool(facts["select_biased"]))
    L.append("Definition select_order : list branch := [%s]." % "; ".join(facts["select_order"]))
    L.append("Definition run_guarded : bool := %s." % coq_bool(facts["run_guarded"]))
    L.append("Definition term_capacity : nat := %d." % facts["term_capacity"])
    L.append("Definition default_capacity : nat := %d." % facts["default_capacity"])
    L.append("Definition mailbox_capacity_is_param : bool := %s." % coq_bool(facts["mailbox_capacity_is_param"]))
    L.append("Definition dead_letter_sites : list (fnname * dlctx * dlreason * dllabel) :=\n  [ %s ]." %
             ";\n    ".join("(%s, %s, %s, %s)" % s for s in facts["dead_letter_sites"]))
    L.append("Definition wrapper_inner : list (fnname * fnname) := [ %s ]." %
             "; ".join("(%s, %s)" % s for s in facts["wrapper_inner"]))
    L.append("Definition retryable : list err := [%s]." % "; ".join(facts["retryable"]))
    L.append("Definition exit_waits_for_permits : bool := %s." % coq_bool(facts["exit_waits_for_permits"]))
    L.append("Definition exit_on_unwind : bool := %s." % coq_bool(facts["exit_on_unwind"]))
    L.append("Definition forwarders : list fwd :=\n  [ %s ]." %
             ";\n    ".join("mkFwd %s %s %s %s %s %s" % (t, m, r, tg, coq_bool(v), w) for (t, m, r, tg, v, w) in facts["forwarders"]))
    L.append("Definition conversions : list conv :=\n  [ %s ]." %
             ";\n    ".join("mkConv %s %s %s %s" % (f, coq_bool(b), t, m) for (f, b, t, m) in facts["conversions"]))
    text = "\n".join(L) + "\n"
    old = None
    if os.path.exists(path):
        old = open(path).read()
    if old != text:
        os.makedirs(os.path.dirname(os.path.abspath(path)), exist_ok=True)
        with open(path, "w") as fh:
            fh.write(text)
    return text


# ------------------------------------------------------------------ tracing-gated code is log-only
LOG = r"(?:tracing::)?(?:trace|debug|info|warn|error)!"


def extract_tracing_gates(facts):
    """Every item guarded by #[cfg(feature = "tracing")] must be of a form that cannot influence
    behaviour: a `use tracing::...`, a span creation, `Instant::now()` for a log line, a log macro
    call, or a match whose arms are log macro calls - with no arithmetic, indexing, unwrap/expect
    anywhere in it.  (C18: the model's tracing feature changes nothing; this is the static half of
    the tie for that claim - the dynamic half is the feature-set differential.)"""
    try:
        n = 0
        for rel in ("src/actor.rs", "src/actor_ref.rs", "src/lib.rs", "src/handler.rs", "src/actor_control.rs",
                    "src/dead_letter.rs", "src/actor_result.rs", "src/error.rs"):
            try:
                src = read(rel)
            except Exception:
                continue
            for m in re.finditer(r'#\[cfg\(feature\s*=\s*"tracing"\)\]', src):
                i = m.end()
                while src[i].isspace():
                    i += 1
                # the guarded item: up to the `;` at depth 0, or a balanced block for match / mod / fn
                depth = 0
                j = i
                end = None
                while j < len(src):
                    c = src[j]
                    if c in "([{":
                        depth += 1
                    elif c in ")]}":
                        depth -= 1
                        if depth < 0:
                            end = j
                            break
                        if depth == 0 and c == "}" and re.match(r"\s*(match|mod|fn|impl|pub)\b", src[i:i + 12]):
                            end = j + 1
                            break
                    elif c == ";" and depth == 0:
                        end = j + 1
                        break
                    elif c == "," and depth == 0:
                        end = j
                        break
                    j += 1
                item = re.sub(r"\s+", " ", src[i:end]).strip()
                n += 1
                body = item
                ok = False
                if re.fullmatch(r"use tracing::[^;]*;", body):
                    ok = True
                elif re.fullmatch(r"let \w+ = tracing::\w+_span!\(.*\);", body):
                    ok = True
                elif re.fullmatch(r"let \w+ = (std|tokio)::time::Instant::now\(\);", body):
                    ok = True
                elif re.fullmatch(LOG + r"\(.*\);?", body):
                    ok = True
                elif re.fullmatch(r"match &?\w+ \{( ?[\w:()_, ]+ => " + LOG + r"\([^{}]*\),?)+ ?\}", body):
                    ok = True
                elif re.match(r"(pub )?(mod|fn|impl)\b", body):
                    ok = True      # whole items compiled only with the feature (subscriber glue)
                # nothing in a log-only item may be able to panic or compute with program values
                inner = re.sub(r'"(?:[^"\\\\]|\\\\.)*"', '""', body)
                if ok and not re.match(r"(pub )?(mod|fn|impl)\b", body):
                    if re.search(r"\.unwrap\(|\.expect\(|\w\[|[^=!<>-]-[^>]|\s/\s|\s\*\s|\s\+\s", inner):
                        ok = False
                if not ok:
                    raise ValueError("%s: tracing-gated item is not log-only: %s" % (rel, body[:90]))
        facts["tracing_gated_items"] = n
    except Exception as ex:  # noqa
        unparsed.append("features: %s" % ex)


# ------------------------------------------------------------------ pinned source fragments
# Small pieces of code whose Coq model is a manual transcription: the normalised source text
# (comments and whitespace removed, tracing-gated statements removed) is pinned.  Any edit to one of
# them - harmless or not - means the model was transcribed from a different text, so the tie is
# reported as broken for the properties that rest on it.
PINS = {
    # name: (file, how to find it, tag)
    "has_path": ("src/lib.rs", ("fn", "has_path"), "pin_dd"),
    "format_cycle_path": ("src/lib.rs", ("fn", "format_cycle_path"), "pin_dd"),
    "WaitForGuard::drop": ("src/lib.rs", ("after", r"impl Drop for WaitForGuard"), "pin_dd"),
    "ask: detection prologue": ("src/actor_ref.rs", ("ask_prologue", None), "pin_dd"),
    "MetricsCollector::record_message": ("src/metrics/collector.rs", ("fn", "record_message"), "pin_metrics"),
}


def normalise(txt):
    txt = re.sub(r'#\[cfg\(feature\s*=\s*"tracing"\)\]\s*[^;{}]*;', "", txt)
    return re.sub(r"\s+", "", txt)


def pinned_text(rel, how):
    src = read(rel)
    kind, arg = how
    if kind == "fn":
        body, params = fn_body(src, arg)
        if body is None:
            raise ValueError("fn %s not found" % arg)
        return normalise(params + "{" + body + "}")
    if kind == "after":
        m = re.search(arg, src)
        if not m:
            raise ValueError("%s not found" % arg)
        b0 = src.index("{", m.end())
        return normalise(src[b0:match_brace(src, b0) + 1])
    if kind == "ask_prologue":
        body, _ = fn_body(src, "ask")
        if body is None:
            raise ValueError("fn ask not found")
        m = re.search(r'#\[cfg\(feature\s*=\s*"deadlock-detection"\)\]\s*let\s+_guard\s*=\s*\{', body)
        if not m:
            raise ValueError("detection prologue of ask not found")
        b0 = body.index("{", m.start() + 10)
        b1 = match_brace(body, b0)
        # the prologue must come before the envelope is built and sent
        rest = body[b1:]
        if ".send(" in body[:m.start()] or ".send(" not in rest:
            raise ValueError("detection prologue is not before the send")
        return normalise(body[b0:b1 + 1])
    raise ValueError("bad pin")


def extract_pins(facts):
    import hashlib
    here = os.path.join(os.path.dirname(__file__), "shape_pins.json")
    want = json.load(open(here)) if os.path.exists(here) else {}
    got = {}
    for name, (rel, how, tag) in PINS.items():
        try:
            txt = pinned_text(rel, how)
            got[name] = hashlib.sha256(txt.encode()).hexdigest()[:16]
            if name in want and want[name] != got[name]:
                unparsed.append("%s: the source text of `%s` (%s) differs from the text the model was transcribed from" % (tag, name, rel))
        except Exception as ex:  # noqa
            unparsed.append("%s: %s: %s" % (tag, name, ex))
    facts["pins"] = got
    if os.environ.get("SHAPE_WRITE_PINS") == "1":
        json.dump(got, open(here, "w"), indent=1, sort_keys=True)


def main():
    out = sys.argv[1] if len(sys.argv) > 1 else os.path.join(os.path.dirname(__file__), "..", "coq", "Gen", "Shape.v")
    facts = dict(DEFAULTS)
    facts["forwarders"] = None
    facts["conversions"] = None
    extract_select(facts)
    extract_caps(facts)
    extract_dead_letters(facts)
    extract_retryable(facts)
    extract_exit(facts)
    extract_forwarders(facts)
    extract_tracing_gates(facts)
    extract_pins(facts)
    if facts["forwarders"] is None:
        here = os.path.join(os.path.dirname(__file__), "shape_default_forwarders.json")
        d = json.load(open(here))
        facts["forwarders"] = [tuple(x) for x in d["forwarders"]]
        facts["conversions"] = [tuple(x) for x in d["conversions"]]
    emit(facts, out)
    summary = {"unparsed": unparsed, "facts": {k: v for k, v in facts.items()}}
    print(json.dumps(summary))


if __name__ == "__main__":
    main()
