#!/usr/bin/env python3
"""Entry point of every registered check:  tools/check.py <Cxx> [--tier quick|thorough] [--replay f]

Steps (DESIGN.md section 9): regenerate Gen/Shape.v from /repo, build the property's theorems (full
.vo), check Print Assumptions and forbidden vernacular, build the extracted model runner, build the
harness against /repo's working tree, run corpus + seeded scripts on the real implementation, accept
every observed round with the model, run the monitors, write evidence, print the verdict.
"""
import argparse
import subprocess
import glob
import hashlib
import json
import os
import random
import shutil
import sys
import time

sys.path.insert(0, os.path.dirname(__file__))
import vlib  # noqa
from vlib import VERIF, CACHE, COQ, log  # noqa
import gen  # noqa
import monitors  # noqa
import props  # noqa  (property table)

# seeded runs (tools/try_seed.sh, tools/seed_matrix.sh) write their evidence elsewhere: the files
# under evidence/ always describe /repo as it is
EVID = os.environ.get("VERIF_EVIDENCE_DIR") or os.path.join(VERIF, "evidence")
REPLAYS = os.path.join(VERIF, "replays")
KNOWN = os.path.join(VERIF, "KNOWN_FINDINGS.txt")

TRUSTED_BASE = [
    "Coq 8.16.1 kernel (coqc, full .vo build); vm_compute used for finite tables/witnesses; no native_compute",
    "axioms: none (every property theorem: 'Closed under the global context'); allowlist empty",
    "extraction: Require Extraction + ExtrOcamlBasic only (bool, option, unit, list, prod, sumbool, sumor; andb/orb inlined); OCaml 4.13.1; ocaml/driver.ml (parser, BFS, printer)",
    "translator tools/extract_shape.py (select bias/order/guard, capacities, dead-letter sites, retryable, forwarders)",
    "harness/ (scripted actor, director on tokio current_thread + paused clock, tracing subscriber) and tools/*.py (generator, monitors, differ)",
    "modelled not verified: tokio mpsc FIFO + FIFO permit hand-off, oneshot, WeakSender::upgrade, timeout polls inner first, timers never early, biased select!, task-local scope, JoinHandle panic capture, fetch_add atomicity",
]


# which properties' theorems consume which generated facts (Gen/Shape.v)
SHAPE_USERS = {
    "select": ("C06", "C07", "C08"),
    "capacities": ("C06", "C09"),
    "dead_letters": ("C13", "C17"),
    "retryable": ("C10",),
    "forwarders": ("C16",),
    "features": ("C18",),
    "exit": ("C03", "C01"),
    "pin_dd": ("C14", "C15"),
    "pin_metrics": ("C20",),
}


def load_known():
    out = []
    if os.path.exists(KNOWN):
        for l in open(KNOWN):
            l = l.strip()
            if l.startswith("finding:"):
                kv = dict(p.split("=", 1) for p in l[len("finding:"):].split() if "=" in p)
                kv["_line"] = l
                out.append(kv)
    return out


def script_hash(lines):
    return hashlib.sha256("\n".join(lines).encode()).hexdigest()[:16]


def gen_family(fam, feats, seed, n, outdir, length=None):
    """Write n seeded scripts of one family; returns list of paths and the op-kind distribution."""
    paths, dist = [], {}
    mode = None
    if ":" in fam:
        # "<family>:<mode>": the same seeded scripts with a `mode <mode>` header (e.g. every operation
        # routed through the type-erased handles)
        fam, mode = fam.split(":", 1)
    if fam == "exh":
        # bounded-exhaustive: n is the length of the action sequences (not a count)
        for i, lines in enumerate(gen.exhaustive_scripts(n, feats)):
            p = os.path.join(outdir, "exh_%06d.scn" % i)
            with open(p, "w") as f:
                f.write("\n".join(lines) + "\n")
            paths.append(p)
        return paths, {"exhaustive_length": n, "exhaustive_scripts": len(paths)}
    if fam == "endings":
        # enumerated: every (on_run history, messages, cause, on_stop outcome); n is not a count
        for i, lines in enumerate(gen.endings_scripts(feats)):
            p = os.path.join(outdir, "endings_%04d.scn" % i)
            with open(p, "w") as f:
                f.write("\n".join(lines) + "\n")
            paths.append(p)
        return paths, {"endings_scripts": len(paths)}
    for i in range(n):
        lines, stats = gen.gen_script(seed * 100003 + i * 7919 + hash_fam(fam), fam, length=length, feats=feats)
        if mode:
            lines = [lines[0], "mode " + mode] + lines[1:]
        p = os.path.join(outdir, "%s_%05d.scn" % (fam, i))
        with open(p, "w") as f:
            f.write("\n".join(lines) + "\n")
        paths.append(p)
        for k, v in stats.items():
            dist[k] = dist.get(k, 0) + v
    return paths, dist


def hash_fam(fam):
    return int(hashlib.sha256(fam.encode()).hexdigest()[:6], 16)


def corpus_scripts(fams, feats):
    out = []
    for fam in fams:
        for p in sorted(glob.glob(os.path.join(VERIF, "corpus", fam, "*.scn"))):
            head = next((l for l in open(p) if l.startswith("feat")), "")
            want = set(k for k in gen.FEATS if ("%s=1" % k) in head)
            if want == set(feats):
                out.append(p)
    return out


def run_family_set(pid, cfg, tier, seed):
    """Run all script families of a property on the real implementation. Returns list of
    dicts(script, feats, family)."""
    n_scale0 = cfg.get("thorough_scale", 25) if tier == "thorough" else 1
    runs = []
    dist_total = {}
    for (fam, feats, n) in cfg["families"]:
        # real-time scripts cost wall-clock time: scale them less
        n_scale = min(n_scale0, 8) if fam == "block" else n_scale0
        if fam == "exh":
            # sequences of length n in the quick tier, n + 1 in the thorough tier
            n, n_scale = (n + 1 if tier == "thorough" else n), 1
        if fam == "endings":
            n_scale = 1
        feats = tuple(sorted(feats))
        key = hashlib.sha256(json.dumps([vlib.repo_hash(), vlib.harness_hash(), vlib.hash_files([gen.__file__]),
                                         fam, feats, seed, n * n_scale, tier,
                                         vlib.hash_files(corpus_scripts([fam], feats))]).encode()).hexdigest()[:24]
        d = os.path.join(CACHE, "obs", key)
        done = os.path.join(d, "DONE")
        with vlib.Lock("obs-" + key):
            if not os.path.exists(done):
                shutil.rmtree(d, ignore_errors=True)
                os.makedirs(d)
                bins = vlib.build_harness(feats)
                paths, dist = gen_family(fam, feats, seed, n * n_scale, d)
                for p in corpus_scripts([fam], feats):
                    q = os.path.join(d, "corpus_" + os.path.basename(p))
                    shutil.copy(p, q)
                    paths.insert(0, q)
                vlib.run_director(bins["director"], paths)
                json.dump(dict(paths=paths, dist=dist), open(done, "w"))
            meta = json.load(open(done))
        for p in meta["paths"]:
            runs.append(dict(script=p, feats=feats, family=fam))
        for k, v in meta["dist"].items():
            dist_total[k] = dist_total.get(k, 0) + v
    return runs, dist_total


def nontrivial(rounds):
    """reached at least one handler entry and one termination or fault"""
    if not rounds:
        return False
    last = rounds[-1]
    he = term = False
    for k, toks in last.items():
        if k.startswith("A"):
            evs = vlib.events(toks)
            he = he or any(e.startswith("HE") for e in evs)
            term = term or any(e in ("ST0", "ST1") or e.endswith("panic") or e.startswith("SX:err") or e.startswith("RD:err") or e.startswith("DLK") for e in evs)
    return he and term


def run_one_script(script, feats):
    """Run one script on the real implementation; a director that hangs or dies leaves the HANG /
    CRASH observation the sharded runner would have left."""
    bins = vlib.build_harness(tuple(sorted(feats)))
    realtime = "mode realtime" in open(script).read(300)
    limit = 90 if realtime else 15
    for ext in (".obs", ".mon"):
        if os.path.exists(script + ext):
            os.remove(script + ext)
    bad = None
    try:
        p = vlib.sh([bins["director"], script], timeout=limit)
        if p.returncode != 0:
            bad = "CRASH the director process died on this script (exit %d)" % p.returncode
    except subprocess.TimeoutExpired:
        bad = "HANG the director did not finish this script within %d s" % limit
    if bad:
        open(script + ".obs", "w").write("R 1\n%s\nE\n" % bad)
        open(script + ".mon", "w").write(bad)
    return bad


def shrink(lines, feats, test, budget=80):
    """ddmin over script lines (the feat header is kept)."""
    head = [l for l in lines if l.startswith(("feat", "mode"))]
    body = [l for l in lines if not l.startswith(("feat", "mode"))]
    tmpd = os.path.join(CACHE, "shrink")
    os.makedirs(tmpd, exist_ok=True)
    calls = [0]

    def fails(cand):
        if calls[0] >= budget:
            return False
        calls[0] += 1
        p = os.path.join(tmpd, "cand_%d.scn" % os.getpid())
        open(p, "w").write("\n".join(head + cand) + "\n")
        try:
            run_one_script(p, feats)
            return test(p)
        except Exception:
            return False

    n = 2
    while len(body) >= 2 and calls[0] < budget:
        chunk = max(1, len(body) // n)
        reduced = False
        for i in range(0, len(body), chunk):
            cand = body[:i] + body[i + chunk:]
            if cand and fails(cand):
                body = cand
                n = max(n - 1, 2)
                reduced = True
                break
        if not reduced:
            if chunk == 1:
                break
            n = min(len(body), n * 2)
    return head + body


def write_replay(pid, payload):
    os.makedirs(REPLAYS, exist_ok=True)
    h = hashlib.sha256(json.dumps(payload, sort_keys=True).encode()).hexdigest()[:12]
    p = os.path.join(REPLAYS, "%s_%s.json" % (pid, h))
    json.dump(payload, open(p, "w"), indent=1)
    return p


def monitor_failures(pid, cfg, script):
    names = cfg.get("monitors", [pid])
    lines = open(script).read().splitlines()
    rounds = vlib.parse_obs(script + ".obs")
    mon_text = open(script + ".mon").read() if os.path.exists(script + ".mon") else ""
    if mon_text.startswith("CRASH") or mon_text.startswith("HANG"):
        return [mon_text.splitlines()[0] + " (the program built from the script crashed or never became quiescent)"]
    run = monitors.Run(lines, rounds)
    out = []
    for nm in names:
        fn = monitors.MONITORS.get(nm)
        if fn is None:
            continue
        try:
            if nm in ("C08", "C09", "C11"):
                out += fn(run, mon_text)
            else:
                out += fn(run)
        except Exception as ex:  # a monitor that crashes is a harness bug, not a finding
            log("monitor %s crashed on %s: %r" % (nm, script, ex))
    return out


def main():
    ap = argparse.ArgumentParser()
    ap.add_argument("pid")
    ap.add_argument("--tier", default=os.environ.get("VERIF_TIER", "quick"))
    ap.add_argument("--replay")
    args = ap.parse_args()
    pid = args.pid
    tier = args.tier if args.tier in ("quick", "thorough") else "quick"
    seed = int(os.environ.get("VERIF_SEED", "1") or 1)
    cfg = props.PROPS_ALL[pid]
    t0 = time.time()
    os.makedirs(EVID, exist_ok=True)
    vlib.prune_cache()
    os.makedirs(CACHE, exist_ok=True)
    known = [k for k in load_known() if k.get("property") == pid]

    if args.replay:
        return replay(pid, cfg, args.replay)

    problems = []        # things that break the proof or the tie (not yet a violation)
    # 1. translator
    shape = vlib.gen_shape()
    unparsed = shape["unparsed"]
    if unparsed:
        log("shape: fragments not recognised, falling back to defaults: %s" % unparsed)
        # a fact this property's theorems consume could not be read from the source: the tie is
        # broken for it (the committed default is used only so that everything else still builds)
        for u in unparsed:
            tag = u.split(":", 1)[0]
            if pid in SHAPE_USERS.get(tag, ()):
                problems.append("translator: cannot recognise the source fragment for '%s' (%s)" % (tag, u))

    # 2. theorems
    prop_file = cfg["props_file"]
    ok_make, out_make = vlib.coq_make([prop_file.replace(".v", ".vo"), "Extract/Extract.vo"])
    thms, pins, pa = vlib.count_obligations(os.path.join(COQ, prop_file))
    obligations = len(thms)
    discharged = 0
    axioms = []
    broken_theorem = None
    if ok_make:
        ok_p, out_p = vlib.coq_props(prop_file)
        closed, axioms = vlib.parse_assumptions(out_p)
        bad_ax = [a for a in axioms if a not in vlib.ALLOWED_AXIOMS]
        if not ok_p:
            problems.append("coqc %s failed" % prop_file)
            broken_theorem = prop_file
        elif bad_ax:
            problems.append("axioms outside the allowlist: %s" % bad_ax)
            broken_theorem = "Print Assumptions: %s" % bad_ax
        elif closed < len(pa) or len(pa) < obligations:
            problems.append("Print Assumptions reports %d closed, %d printed, %d theorems" % (closed, len(pa), obligations))
            broken_theorem = "Print Assumptions coverage"
        else:
            discharged = obligations
    else:
        tail = "\n".join(out_make.splitlines()[-25:])
        problems.append("Coq build failed:\n" + tail)
        import re as _re
        m = _re.search(r'File "\./([^"]+)", line (\d+)', out_make)
        broken_theorem = "%s:%s" % (m.group(1), m.group(2)) if m else "coq build"
    chk_summary = None
    if tier == "thorough" and ok_make and not problems:
        ok_chk, chk_summary = vlib.coqchk(prop_file)
        if not ok_chk:
            problems.append("coqchk does not confirm %s: %s" % (prop_file, chk_summary))
            broken_theorem = broken_theorem or "coqchk %s" % prop_file
            discharged = 0
    forb = vlib.scan_forbidden()
    if forb:
        problems.append("forbidden vernacular: %s" % forb[:5])
        broken_theorem = broken_theorem or "forbidden vernacular"
        discharged = 0

    # 3. model runner
    model_ok = True
    try:
        if os.path.exists(os.path.join(VERIF, "ocaml", "model.ml")):
            vlib.build_driver()
        else:
            model_ok = False
    except Exception as ex:
        model_ok = False
        problems.append("driver build failed: %s" % ex)

    # 4-5. real runs, acceptance, monitors
    runs, dist = run_family_set(pid, cfg, tier, seed)
    extra_results = []
    for fn in cfg.get("extra", []):
        extra_results.append(fn(tier, seed))

    accepted = 0
    inconclusive = 0
    diverged = []
    states = transitions = 0
    mon_fail = []
    distinct = set()
    reached = dict(handler=0, termination=0, timeout=0, full_mailbox=0)
    samples = []
    if model_ok:
        res = vlib.accept_many([r["script"] for r in runs], cfg.get("projection", pid))
    else:
        res = [(False, {}, "model runner unavailable")] * len(runs)
    # real-time scripts (blocking API on real threads) depend on wall-clock margins: a script that
    # does not match is re-run up to twice on a quieter machine before it counts
    res = list(res)
    for i, (r, (ok, st, out)) in enumerate(zip(runs, res)):
        if ok is False and r["family"] == "block":
            for attempt in range(2):
                try:
                    run_one_script(r["script"], r["feats"])
                except Exception:
                    pass
                ok2 = vlib.accept(r["script"], cfg.get("projection", pid))
                if ok2[0]:
                    res[i] = ok2
                    break
    for r, (ok, st, out) in zip(runs, res):
        rounds = vlib.parse_obs(r["script"] + ".obs")
        lines = open(r["script"]).read().splitlines()
        if nontrivial(rounds):
            distinct.add(script_hash(lines))
        if rounds:
            last = rounds[-1]
            alltok = " ".join(" ".join(v) for v in last.values())
            reached["handler"] += "e:HE" in alltok
            reached["termination"] += ("e:ST" in alltok)
            reached["timeout"] += "r=timeout" in alltok
            reached["full_mailbox"] += any("r=pending" in " ".join(v) for rd in rounds for v in rd.values())
        if ok is None:
            inconclusive += 1
        elif ok:
            accepted += 1
            states += st["states"]
            transitions += st["transitions"]
            if len(samples) < 2 and nontrivial(rounds):
                samples.append(dict(script=lines, final_view={k: v for k, v in rounds[-1].items()}, feats=list(r["feats"])))
        else:
            diverged.append((r, out))
        mf = monitor_failures(pid, cfg, r["script"])
        if mf:
            mon_fail.append((r, mf))

    # ---- verdict
    violations = []      # (replay path, suffix)
    known_lines = []
    classify = cfg.get("classify")

    def handle_failure(r, failures, kind):
        """kind: 'monitor' or 'divergence'."""
        cls = classify(r, failures) if classify else None
        for k in known:
            if cls and k.get("class") == cls:
                rest = " ".join(w for w in k["_line"][len("finding:"):].split() if not w.startswith("property="))
                known_lines.append("KNOWN-FINDING: property=%s %s" % (pid, rest))
                return
        lines = open(r["script"]).read().splitlines()

        def still(p):
            if kind == "monitor":
                return bool(monitor_failures(pid, cfg, p))
            okk, _, _ = vlib.accept(p, cfg.get("projection", pid))
            return okk is False
        # a script on which the director hangs costs its whole time limit per attempt: shrink less
        slow = any(isinstance(x, str) and x.startswith(("HANG", "CRASH")) for x in failures)
        try:
            small = shrink(lines, r["feats"], still, budget=16 if slow else 80)
        except Exception:
            small = lines
        payload = dict(property=pid, kind=kind, feats=list(r["feats"]), seed=seed, script=small,
                       original_script=lines, failures=failures[:10])
        violations.append((write_replay(pid, payload), ""))

    for r, mf in mon_fail[:12]:
        handle_failure(r, mf, "monitor")
        if violations:
            break

    tie_broken = bool(problems) or bool(diverged)
    if not violations and tie_broken:
        # the proof or the correspondence no longer checks: search for a concrete failing input
        # (same families, doubled budget, another seed), judged by the monitors alone
        cfg2 = dict(cfg)
        # (for the bounded-exhaustive family n is a sequence length: one longer, not twice as long)
        cfg2["families"] = [(f, ft, n + 1 if f == "exh" else n if f == "endings" else n * 2) for (f, ft, n) in cfg["families"]]
        runs2, _ = run_family_set(pid, cfg2, tier, seed + 7777)
        for r in runs2:
            mf = monitor_failures(pid, cfg, r["script"])
            if mf:
                handle_failure(r, mf, "monitor")
                if violations:
                    break
        if not violations:
            if diverged:
                r, out = diverged[0]
                lines = open(r["script"]).read().splitlines()
                payload = dict(property=pid, kind="correspondence", feats=list(r["feats"]), seed=seed, script=lines,
                               no_longer_checks="model acceptance of the observed rounds (projection %s); %d of %d scripts diverge" % (cfg.get("projection", pid), len(diverged), len(runs)),
                               detail=out[-6000:], also=problems)
                violations.append((write_replay(pid, payload), " no-failing-input-found"))
            else:
                payload = dict(property=pid, kind="proof", seed=seed, no_longer_checks=broken_theorem, detail=problems)
                violations.append((write_replay(pid, payload), " no-failing-input-found"))

    for er in extra_results:
        for cls in er.get("known_classes", []):
            listed = [k for k in known if k.get("class") == cls]
            for k in listed:
                rest = " ".join(w for w in k["_line"][len("finding:"):].split() if not w.startswith("property="))
                known_lines.append("KNOWN-FINDING: property=%s %s" % (pid, rest))
            if not listed:
                # a finding of a class KNOWN_FINDINGS.txt does not list for this property is a violation
                violations.append((write_replay(pid, dict(property=pid, kind="extra",
                                                          detail=dict(what="finding of class %s, not listed for %s" % (cls, pid),
                                                                      coverage=er.get("coverage")))), ""))
    for er in extra_results:
        for v in er.get("violations", []):
            violations.append((write_replay(pid, dict(property=pid, kind="extra", detail=v)), v.get("suffix", "") if isinstance(v, dict) else ""))

    # known findings that still reproduce (witness runs are part of the corpus)
    for l in sorted(set(known_lines)):
        print(l)

    wall = time.time() - t0
    cov = dict(
        obligations=obligations, discharged=discharged,
        checker_cmd="cd coq && coq_makefile -f _CoqProject -o Makefile && make %s && coqc -Q . RS %s  (Print Assumptions parsed; forbidden-vernacular scan)" % (prop_file.replace(".v", ".vo"), prop_file),
        trusted_base=TRUSTED_BASE,
        theorems=thms, axioms_reported=axioms, shape_unparsed=unparsed, coqchk=chk_summary,
        traces_validated_against_impl=accepted,
        evaluations=len(runs), distinct_nontrivial=len(distinct),
        rule="seeded director scripts (families %s) + committed corpus, each run on the real rsactor (tokio current_thread, paused clock) and accepted round by round by the extracted Coq model under projection %s; a script is non-trivial when it reached at least one handler entry and one termination or fault; distinct by script hash" % ([f[0] for f in cfg["families"]], cfg.get("projection", pid)),
        samples=samples if samples else [dict(note="no accepted non-trivial script in this run")],
        states=states, transitions=transitions,
        input_distribution=dist, reached=reached,
        monitors=cfg.get("monitors", [pid]), monitor_failures=len(mon_fail), divergences=len(diverged), inconclusive=inconclusive,
        known_findings_reproduced=sorted(set(known_lines)),
    )
    for er in extra_results:
        cov.update(er.get("coverage", {}))
    ev = dict(property_id=pid, tier=tier, seed=seed, level=cfg.get("level", "proof"), coverage=cov,
              assumptions=cfg.get("assumptions", []), wall_s=round(wall, 2), violations=len(violations))
    json.dump(ev, open(os.path.join(EVID, "%s.json" % pid), "w"), indent=1)

    if violations:
        violations.sort(key=lambda v: 1 if v[1] else 0)   # a concrete failing input first
        for (p, suffix) in violations[:1]:
            print("VIOLATION property=%s replay=%s%s" % (pid, p, suffix))
        return 1
    print("OK property=%s tier=%s obligations=%d/%d scripts=%d accepted=%d nontrivial=%d wall=%.1fs" %
          (pid, tier, discharged, obligations, len(runs), accepted, len(distinct), wall))
    return 0


def replay(pid, cfg, path):
    payload = json.load(open(path))
    if "script" not in payload:
        print(json.dumps(payload, indent=1))
        return 1
    d = os.path.join(CACHE, "replay")
    os.makedirs(d, exist_ok=True)
    p = os.path.join(d, "replay.scn")
    open(p, "w").write("\n".join(payload["script"]) + "\n")
    vlib.gen_shape()
    vlib.coq_make(["Extract/Extract.vo"])
    vlib.build_driver()
    run_one_script(p, payload.get("feats", []))
    ok, st, out = vlib.accept(p, cfg.get("projection", pid))
    mf = monitor_failures(pid, cfg, p)
    print(open(p + ".obs").read())
    print("model acceptance:", "ACCEPT" if ok else out)
    print("monitor failures:", mf)
    if (not ok) or mf:
        print("VIOLATION property=%s replay=%s" % (pid, path))
        return 1
    return 0


if __name__ == "__main__":
    sys.exit(main())
