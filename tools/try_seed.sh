#!/bin/sh
# usage: tools/try_seed.sh <patch.diff> <prop>...   applies the patch to /repo, runs the checks, undoes it
P="$1"; shift
cd /verif
export VERIF_EVIDENCE_DIR=/verif/.cache/seed_evidence; mkdir -p $VERIF_EVIDENCE_DIR
git -C /repo apply "$P" || { echo "patch does not apply"; exit 2; }
for pid in "$@"; do
  python3 tools/check.py "$pid" 2>&1 | grep -v "^\[check\]" | tail -3
done
git -C /repo checkout -- .
git -C /repo status --short | head -3
python3 tools/extract_shape.py coq/Gen/Shape.v >/dev/null
