"""Property table: which theorems, script families, projection and monitors decide each property."""
import os
import sys

sys.path.insert(0, os.path.dirname(__file__))
import vlib
import monitors

NONE = ()


def probe(cmd, timeout=1800):
    """Run a probe of the real crate.  A probe that hangs or dies is an observation like any other
    (the expected output then does not match and the command line is the replay), not a crash of
    the check."""
    import subprocess
    try:
        p = subprocess.run(cmd, timeout=timeout, env=vlib.ENV, capture_output=True, text=True)
    except subprocess.TimeoutExpired as e:
        so = e.stdout.decode() if isinstance(e.stdout, bytes) else (e.stdout or "")
        return so + "\nPROBE-HANG: %s still running after %d s" % (os.path.basename(cmd[0]), timeout)
    if p.returncode != 0:
        return p.stdout + "\nPROBE-DIED: %s exit code %d: %s" % (os.path.basename(cmd[0]), p.returncode, p.stderr[-400:])
    return p.stdout



def extra_result_table(tier, seed):
    """C05: all 18 ActorResult shapes x every query method / conversion, real vs model (exhaustive)."""
    bins = vlib.build_harness((), bins=("director", "result_enum"))
    real = probe([bins["result_enum"]], 600).splitlines()
    model = vlib.sh([vlib.DRIVER, "--result-table"], check=True).stdout.splitlines()
    extra_real = [l for l in real if l.startswith("retryable ") and l.split()[1] in ("downcast", "runtime", "mailbox_capacity")]
    real_cmp = [l for l in real if l not in extra_real]
    viol = []
    for r, m in zip(real_cmp, model):
        if r != m:
            viol.append(dict(what="ActorResult accessor table differs", real=r, model=m))
    if len(real_cmp) != len(model):
        viol.append(dict(what="accessor table length differs", real=len(real_cmp), model=len(model)))
    for l in extra_real:
        if not l.endswith(" 0"):
            viol.append(dict(what="non-timeout error reported retryable", real=l))
    return dict(violations=viol, coverage=dict(accessor_rows=len(real_cmp), accessor_table_exhaustive=True,
                                               accessor_sample=real_cmp[:2]))


def extra_join_probe(tier, seed):
    """C03 (ask_join clause): every case the model's ask_join distinguishes, on the real crate."""
    bins = vlib.build_harness((), bins=("director", "join_probe"))
    real = probe([bins["join_probe"]], 120).strip().splitlines()
    model = vlib.sh([vlib.DRIVER, "--join-table"], check=True).stdout.strip().splitlines()
    viol = []
    # the probe runs some cases several times under different fates of the actor after the reply
    # (kept alive, killed, stopped while the task is still running): the model's answer for a case
    # does not depend on that, so every real row must be a row of the model's table, and every row
    # of the table must have been exercised
    if any(r not in model for r in real) or any(m not in real for m in model):
        viol.append(dict(what="ask_join: real results differ from the model's table", real=real, model=model,
                         replay_cmd="join_probe"))
    return dict(violations=viol, coverage=dict(ask_join_cases=len(model), ask_join_rows=real))


DD_PROBE_EXPECTED = [
    "panic_while_asking run=recv edges_after_hook=0 callback=send boss=panic peer=ended edges_end=0 poisoned=false",
    "select_drops_ask run=ok99 edges_after_hook=0 callback=ok1 boss=ended peer=ended edges_end=0 poisoned=false",
    "timeout_drops_ask run=ok98 edges_after_hook=0 callback=ok1 boss=ended peer=ended edges_end=0 poisoned=false",
    "overlapping_asks_first_ends_first run=ok12 edges_after_hook=0 callback=ok1 boss=ended peer=ended edges_end=0 poisoned=false",
    "callback_during_ask_join run=ok11 edges_after_hook=1 callback=ok1 boss=ended peer=ended edges_end=0 poisoned=false",
]


def extra_dd_probe(tier, seed):
    """C12 / C15: the wait-for graph when an in-flight ask of a hook goes away by a panic of the hook
    (join!), a select! that drops it, or a timeout - compositions the sequential model has no label
    for.  Oracle: no residue (graph empty once no ask is in flight), the peer's later ask towards the
    actor does not trip the detector, the mutex is not poisoned."""
    bins = vlib.build_harness(("dd",), bins=("director", "dd_probe"))
    real = probe([bins["dd_probe"]], 120).strip().splitlines()
    viol = []
    if real != DD_PROBE_EXPECTED:
        diff = [(r, e) for r, e in zip(real, DD_PROBE_EXPECTED) if r != e]
        viol.append(dict(what="wait-for graph residue / false detection after an in-flight ask was dropped or its hook panicked",
                         real=real, expected=DD_PROBE_EXPECTED, first_difference=diff[:1], replay_cmd="dd_probe"))
    return dict(violations=viol, coverage=dict(dd_probe_scenarios=len(real), dd_probe_rows=real))


def extra_lazy_probe(tier, seed):
    """C16 (and C01): a send future does nothing before its first poll - typed and through every
    erased route alike.  The model has no step for creating a future: an operation begins at its first
    poll, so an unpolled future that is dropped delivers nothing and a deferred one is ordered by its
    first poll."""
    bins = vlib.build_harness((), bins=("director", "lazy_probe"))
    real = probe([bins["lazy_probe"]], 120).strip().splitlines()
    want = "unpolled=[] deferred=[2, 1] raced=[8] oks=111 late=1 overdue=1"
    viol = []
    bad = [l for l in real if l.split(" ", 1)[1] != want]
    if bad or len(real) != 8:
        viol.append(dict(what="a send future acted before its first poll (or the erased route differs from the typed one)",
                         real=real, expected="<route> " + want, replay_cmd="lazy_probe"))
    return dict(violations=viol, coverage=dict(lazy_probe_routes=len(real), lazy_probe_rows=real[:3]))


def extra_dd_race(tier, seed):
    """C14: two actors asking each other at the same instant on a multi-thread runtime, many rounds:
    every round one of the two asks must panic with 'Deadlock detected' and the surviving peer must
    finish (supporting stress test for the atomicity of check-and-insert, which the model has as one
    step).  A survivor that never finishes was the late-push defect (DESIGN.md 7b, fixed in /repo):
    it is a violation again if it returns."""
    bins = vlib.build_harness(("dd",), bins=("director", "dd_race_probe"))
    rounds = 3000 if tier == "quick" else 30000
    out = probe([bins["dd_race_probe"], str(rounds)], 1800).strip()
    want = "rounds=%d detected=%d hung=0 other=0 survivor_hung=0 edges_end_minus_hung=0" % (rounds, rounds)
    viol = []
    if out.strip() != want:
        viol.append(dict(what="a concurrent two-actor ask cycle was not detected, residue was left, or the surviving actor never finished",
                         real=out, expected=want, replay_cmd="dd_race_probe %d" % rounds))
    return dict(violations=viol, coverage=dict(dd_race=out))


def extra_late_push(tier, seed):
    """C03 on a multi-thread runtime: asks racing with the end of their target (kill / handler panic /
    stop).  Every ask must return once the actor has ended.  (Before the fix in /repo - DESIGN.md 7b -
    about one racing ask in 5000 never did.)"""
    bins = vlib.build_harness((), bins=("director", "late_push_probe"))
    rounds = 3000 if tier == "quick" else 30000
    out = probe([bins["late_push_probe"], str(rounds), "8"], 900).strip()
    want = "asks=%d hung=0" % (rounds * 8)
    viol = []
    if out.strip() != want:
        viol.append(dict(what="asks do not return after their target has ended", real=out, expected=want,
                         replay_cmd="late_push_probe %d 8" % rounds))
    return dict(violations=viol, coverage=dict(late_push=out))


def _mt_stress(feats, tier, seed, what):
    bins = vlib.build_harness(feats, bins=("director", "mt_stress"))
    rounds = 20000 if tier == "quick" else 200000
    out = probe([bins["mt_stress"], str(rounds), str(seed % 100000 + 1)], 1500).strip()
    viol = []
    if not (out.startswith("rounds=%d " % rounds) and out.endswith(" violations=0")):
        viol.append(dict(what=what, real=out, expected="rounds=%d ops=<n> violations=0" % rounds,
                         replay_cmd="mt_stress %d %d  (features %s)" % (rounds, seed % 100000 + 1, ",".join(feats) or "none")))
    return dict(violations=viol, coverage=dict(mt_stress=out, mt_stress_features=list(feats)))


def extra_mt_stress(tier, seed):
    """C01-C05, C11 under real parallelism (8 worker threads): random rounds of 1-4 actors with small
    mailboxes and 2-7 concurrent clients doing tell / ask / *_with_timeout / stop / kill and asks
    issued from inside handlers, judged by rules that need no model: nothing handled twice, nothing
    handled after its sender was told Err(Send) (or a tell Err(Timeout)), per-sender order, an ask's
    Ok value is the one computed for that very request, every operation returns, on_start first /
    on_stop last and once, the killed flag of the result is the one on_stop saw and is true only if
    a kill was accepted, ids unique.  A third of the rounds are calm (no client stops or kills; the
    actors - some with an on_run that stays enabled - end after the clients are done, by stop() or
    by losing every reference): then every send must have succeeded, everything accepted must have
    been handled before on_stop(false), the actor must end, and upgrade must fail afterwards (C07).
    A supporting test: the model's schedules are those of one thread."""
    return _mt_stress((), tier, seed, "a model-free rule failed under a multi-thread random workload (see the probe output)")


def extra_mt_stress_feat(tier, seed):
    """C12, C13, C15, C20 under real parallelism: the same workload on a build with
    deadlock-detection, test-utils, metrics and tracing.  The asks issued from handlers only go to
    higher-numbered actors, so no cycle exists: no actor may panic (C12); the dead-letter counter
    moves per round by exactly the number of failed deliveries (C13); the wait-for graph is empty
    whenever every actor has ended (C15); message_count equals the handlers entered, stays readable
    after the end, avg <= max, snapshot = accessors (C20)."""
    return _mt_stress(("dd", "metrics", "testutils", "tracing"), tier, seed, "a model-free rule failed under a multi-thread random workload on the feature build (see the probe output)")


def extra_chan_probe(tier, seed):
    """C03 / C01 / C02 / C09, the theorems over Model/Chan.v (the mailbox at permit granularity):
    random label scripts - obtain a permit, push, give back, fail, take, close, drain, exit test, for
    1-4 senders and capacities 1-4, under both exit protocols - are run on the real
    tokio::sync::mpsc channel (chan_probe) and on the extracted cstep (driver --chan); free permits,
    queue length, closedness and the number of live messages after every step, and the final
    handled / dropped / per-sender Ok and Err lists must be identical.  This is the tie for the
    tokio facts the model assumes, including that a value pushed after the receiver has gone stays
    alive (stranded)."""
    import gen_chan
    bins = vlib.build_harness((), bins=("director", "chan_probe"))
    d = os.path.join(vlib.CACHE, "chan")
    os.makedirs(d, exist_ok=True)
    n = 20000 if tier == "quick" else 400000
    f = os.path.join(d, "scripts_%s.txt" % tier)
    lines, stats = gen_chan.write(seed, n, f)
    model = vlib.sh([vlib.DRIVER, "--chan", f], check=True, timeout=1800).stdout.splitlines()
    real = probe([bins["chan_probe"], f], 1800).splitlines()
    viol = []
    if model != real:
        k = next((i for i in range(min(len(model), len(real))) if model[i] != real[i]), min(len(model), len(real)))
        viol.append(dict(what="the real tokio channel and the permit-granularity model (Model/Chan.v) disagree",
                         script=lines[k] if k < len(lines) else "<length differs>",
                         model=model[k] if k < len(model) else "<none>", real=real[k] if k < len(real) else "<none>",
                         replay_cmd="chan_probe <file with that line> ; driver --chan <file>"))
    exited = sum(1 for l in model if "/-/" in l)
    stranded = sum(1 for l in model if "/-/" in l and not l.split(" H=")[0].rstrip().endswith("/0"))
    return dict(violations=viol, coverage=dict(chan_scripts=len(lines), chan_labels=stats, chan_scripts_reaching_exit=exited,
                                               chan_scripts_ending_with_a_stranded_message=stranded))


def extra_sync_block(tier, seed):
    """C02 / C09 / C17: the blocking API while the runtime's only thread is busy in a synchronous
    handler (a schedule the director cannot produce): a spawn_blocking thread issues three sends one
    after the other through every sequence of five blocking routes (blocking_tell with / without
    timeout, the deprecated alias, the erased handler, blocking_ask) into a mailbox of capacity 1
    and 2 - 250 scenarios.  Every send must return Ok (it waits for its slot) and the handled order
    must be the program order."""
    bins = vlib.build_harness((), bins=("director", "sync_block_probe"))
    reps = 1 if tier == "quick" else 4
    viol, n = [], 0
    for _ in range(reps):
        out = probe([bins["sync_block_probe"]], 600).strip().splitlines()
        n += len(out)
        bad = [l for l in out if not l.endswith("results=ok,ok,ok handled=[0, 1, 2, 3]")]
        if bad or len(out) != 250:
            viol.append(dict(what="a blocking send failed instead of waiting, or sends of one thread through different blocking routes were handled out of program order",
                             real=bad[:3] or ["%d scenario lines instead of 250" % len(out)],
                             expected="cap=<c> routes=<r> results=ok,ok,ok handled=[0, 1, 2, 3]", replay_cmd="sync_block_probe"))
            break
    return dict(violations=viol, coverage=dict(sync_block_scenarios=n))


CANCEL_PROBE_EXPECTED = [
    "kill_drop_before_grant handled=[1, 2, 4] res3=dropped tell4=ok join=ended(killed=true) on_stop=Some(true)",
    "stop_drop_before_grant handled=[1, 2, 4] res3=dropped tell4=ok join=ended(killed=false) on_stop=Some(false)",
    "kill_drop_after_grant handled=[1, 2, 4] res3=dropped tell4=ok join=ended(killed=true) on_stop=Some(true)",
    "stop_drop_after_grant handled=[1, 2, 4] res3=dropped tell4=ok join=ended(killed=false) on_stop=Some(false)",
    "kill_drop_after_kill_consumed handled=[1, 2] res3=dropped join=ended(killed=true) on_stop=Some(true)",
    "kill_poll_after_kill_consumed handled=[1, 2] res3=err join=ended(killed=true) on_stop=Some(true)",
    "stop_poll_granted_then_stop handled=[1, 2, 3] res3=ok join=ended(killed=false) on_stop=Some(false)",
    "timeout_granted_overdue handled=[1, 2, 3] res3=ok result_matches_delivery=true join=ended"
]


def extra_cancel_probe(tier, seed):
    """C06 / C03 / C07: send futures cancelled or completed while they wait for, or have just been
    handed, a mailbox slot, around a kill or a stop - schedules that need a future to stay un-polled
    across other steps (KGiveBack / late KFail of Model/Chan.v).  The actor must end whatever the
    waiting sender does, the cancelled message is never handled, a freed slot is usable at once."""
    bins = vlib.build_harness((), bins=("director", "cancel_probe"))
    real = probe([bins["cancel_probe"]], 90).strip().splitlines()
    viol = []
    if real != CANCEL_PROBE_EXPECTED:
        diff = [(r, e) for r, e in zip(real, CANCEL_PROBE_EXPECTED) if r != e]
        viol.append(dict(what="an actor did not end, handled a cancelled message, or a freed slot was not usable, after a waiting send was cancelled",
                         real=real, expected=CANCEL_PROBE_EXPECTED, first_difference=diff[:1], replay_cmd="cancel_probe"))
    return dict(violations=viol, coverage=dict(cancel_probe_scenarios=len(real)))


def extra_id_stress(tier, seed):
    """C11: ids handed out by concurrent spawns from many OS threads (fresh process): the model's
    id_of_index says the n-th spawn gets id n, so n spawns give exactly 1..n, all distinct; every
    derived handle (clone, weak, upgraded) carries the same id."""
    bins = vlib.build_harness((), bins=("director", "id_stress"))
    runs = [(16, 500), (4, 2000), (32, 100)] if tier == "quick" else [(16, 4000), (64, 500), (4, 20000), (32, 2000)]
    viol, rows = [], []
    for th, per in runs:
        out = probe([bins["id_stress"], str(th), str(per)], 900).strip()
        n = th * per
        want = "spawned=%d distinct=%d min=1 max=%d contiguous=true unstable=0" % (n, n, n)
        rows.append(dict(threads=th, per_thread=per, real=out))
        if out != want:
            viol.append(dict(what="ids of concurrent spawns are not exactly 1..n / a derived handle changed its id",
                             input="id_stress %d %d" % (th, per), real=out, model=want))
    # ... and while other threads keep making spawns that panic after the id was taken (C12)
    for th, per, fl in ([(8, 2000, 4)] if tier == "quick" else [(8, 20000, 4), (16, 5000, 8)]):
        out = probe([bins["id_stress"], str(th), str(per), str(fl)], 900).strip()
        n = th * per
        want = "spawned=%d distinct=%d unstable=0 failing_spawns_panicked=true" % (n, n)
        rows.append(dict(threads=th, per_thread=per, failing_threads=fl, real=out))
        if out != want:
            viol.append(dict(what="ids of concurrent spawns are not distinct while other spawns fail",
                             input="id_stress %d %d %d" % (th, per, fl), real=out, expected=want))
    return dict(violations=viol, coverage=dict(id_stress_runs=rows))


def extra_config_probe(tier, seed):
    """C09: the process-wide default capacity, probed in fresh subprocesses (real vs model)."""
    bins = vlib.build_harness((), bins=("director", "config_probe"))
    seqs = ["-", "0", "5", "0,5,7", "3,3", "1", "7,0,2", "s,2", "s,0,3,4", "2,s,5", "32,2", "32,0,32,7", "s,32,5"]
    if tier == "thorough":
        seqs += ["2", "4,4,4", "0,0,9", "64", "33"]
    viol, rows = [], []
    for q in seqs:
        real = probe([bins["config_probe"], q], 300).strip()
        model = vlib.sh([vlib.DRIVER, "--config", q], check=True).stdout.strip()
        rows.append(dict(sets=q, real=real, model=model))
        if real != model:
            viol.append(dict(what="default mailbox capacity / set_default differs", input=q, real=real, model=model))
    return dict(violations=viol, coverage=dict(config_sequences=len(seqs), config_rows=rows[:3]))


def extra_macro_corpus(tier, seed):
    """C19: generated corpus crate compiled against the real macros vs the Coq decision model."""
    import json as _json
    out = os.path.join(vlib.CACHE, "macro", tier)
    p = vlib.sh([sys.executable, os.path.join(vlib.VERIF, "macro", "run_corpus.py"), out, "--tier", tier, "--seed", str(seed)],
                timeout=3000)
    viol = []
    if p.returncode != 0:
        import re as _re
        txt = p.stdout + p.stderr
        m = _re.search(r"--> src/([cdh]\d{4})\.rs", txt)
        case_line = None
        if m and os.path.exists(os.path.join(out, "cases.txt")):
            case_line = next((l.strip() for l in open(os.path.join(out, "cases.txt")) if l.startswith(m.group(1) + " ")), None)
        if case_line:
            # a positive case of the corpus (a program the model accepts, and that compiles on the
            # unchanged tree) is rejected by rustc after macro expansion: that program is the input
            src = os.path.join(out, "corpus", "src", m.group(1) + ".rs")
            viol.append(dict(what="a handler the model accepts no longer compiles after macro expansion",
                             case=case_line, program=open(src).read().splitlines() if os.path.exists(src) else None,
                             rustc=txt[txt.find("error"):][:1500]))
        else:
            viol.append(dict(what="macro corpus could not be built/run (exit %d)" % p.returncode, detail=txt[-3000:],
                             suffix=" no-failing-input-found"))
        return dict(violations=viol, coverage=dict(programs=0))
    cases = {}
    for l in open(os.path.join(out, "cases.txt")):
        w = l.split()
        if len(w) == 3:
            cases[w[0]] = (w[1], w[2])
    model = {}
    for l in vlib.sh([vlib.DRIVER, "--macro", os.path.join(out, "cases.txt")], check=True).stdout.splitlines():
        w = l.split()
        model[w[0]] = w[1:]
    real = {}
    for l in open(os.path.join(out, "real.txt")):
        w = l.split()
        if w:
            real[w[0]] = w[1:]
    checked, samples = 0, []
    for cid, (attr, ret) in sorted(cases.items()):
        r = real.get(cid)
        m = model.get(cid, ["skip"])
        if r is None:
            viol.append(dict(what="no result for macro case", case=[cid, attr, ret]))
            continue
        checked += 1
        kv = dict(t.split("=", 1) for t in r[1:] if "=" in t)
        ok = True
        if cid.startswith("s"):
            ok = r[0] == "error"
        elif attr == "manual":
            ok = r[0] == "impl" and kv.get("tell_calls") == "1" and kv.get("ask_calls") == "0" and kv.get("ask_ok") == "1"
        elif attr == "derive":
            ok = r[0] == "derive" and kv.get("on_start_identity") == "1"
        elif m[0] == "error":
            ok = r[0] == "error"
        elif m[0] == "impl":
            mk = dict(t.split("=", 1) for t in m[1:])
            ok = (r[0] == "impl" and kv.get("reply_unit") == mk["reply_unit"] and kv.get("logs_err") == mk["logs_err"]
                  and kv.get("logs_ok") == "0" and kv.get("ask_ok") == "1" and kv.get("handled") == "4")
        if not ok:
            viol.append(dict(what="macro-generated code differs from the decision model", case=[cid, attr, ret], real=r, model=m))
        elif len(samples) < 3:
            samples.append(dict(case=[cid, attr, ret], real=" ".join(r), model=" ".join(m)))
    return dict(violations=viol, coverage=dict(programs=checked, disagreements_checked=len(viol), macro_samples=samples))


def extra_metrics_probe(tier, seed):
    """C20: wall-clock scenarios on a metrics build: counts exact, durations by inequality."""
    bins = vlib.build_harness(("metrics",), bins=("director", "metrics_probe"))
    n = 40 if tier == "quick" else 400
    out = probe([bins["metrics_probe"], str(seed), str(n)], 300 if tier == "quick" else 1200).splitlines()
    viol = [dict(what="metrics probe failed", scenario=l, replay_cmd="metrics_probe %d %d" % (seed, n)) for l in out if l.startswith(("FAIL", "PROBE-"))]
    return dict(violations=viol, coverage=dict(metrics_scenarios=len(out), metrics_sample=out[:2]))


BASE_PREFIXES = ("id=", "up=", "alive=", "join=", "jk=", "jph=", "jerr=", "jst=", "e:", "r=", "d:")


def base_view(obs_path):
    """the feature-independent part of an observation file, as text"""
    out = []
    for line in open(obs_path):
        w = line.split()
        if not w or w[0] in ("Q", "G", "DC"):
            continue
        if w[0] in ("R", "E"):
            out.append(w[0])
            continue
        out.append(w[0] + " " + " ".join(t for t in w[1:] if t.startswith(BASE_PREFIXES)))
    return out


def extra_features(tier, seed):
    """C18: the same seeded scripts on harness builds with different rsactor feature sets."""
    import gen as _gen
    import shutil as _sh
    import itertools as _it
    feats_all = ("dd", "metrics", "testutils", "tracing")
    if tier == "quick":
        sets = [feats_all] + [(f,) for f in feats_all]
        n = 40
    else:
        sets = [c for k in range(1, 5) for c in _it.combinations(feats_all, k)]
        n = 150
    d = os.path.join(vlib.CACHE, "feat", tier)
    _sh.rmtree(d, ignore_errors=True)
    os.makedirs(d)
    fams = ("core", "time", "fault", "multi")
    viol, known, compared, skipped_cycles = [], [], 0, 0
    # the reference run: no features
    def write_set(fs):
        files = []
        for fam in fams:
            for i in range(n):
                lines, _ = _gen.gen_script(seed * 9001 + i * 17 + len(fam), fam, feats=fs)
                p = os.path.join(d, "%s_%s_%03d.scn" % (vlib.featset_name(fs), fam, i))
                open(p, "w").write("\n".join(lines) + "\n")
                files.append(p)
        known_w = os.path.join(vlib.VERIF, "corpus", "known", "C15_stale_edge.scn")
        lines = open(known_w).read().splitlines()
        lines[0] = _gen.feat_line(fs)
        p = os.path.join(d, "%s_known_000.scn" % vlib.featset_name(fs))
        open(p, "w").write("\n".join(lines) + "\n")
        files.append(p)
        return files
    ref = write_set(())
    vlib.run_director(vlib.build_harness(())["director"], ref)
    for fs in sets:
        files = write_set(fs)
        vlib.run_director(vlib.build_harness(fs)["director"], files)
        res = vlib.accept_many(files, "C18")
        for f0, f1, (ok, st, out) in zip(ref, files, res):
            b0, b1 = base_view(f0 + ".obs"), base_view(f1 + ".obs")
            lines = open(f1).read().splitlines()
            if b0 != b1:
                # a difference is legitimate only if the program contains an ask cycle
                run0 = monitors.Run(open(f0).read().splitlines(), vlib.parse_obs(f0 + ".obs"))
                run1 = monitors.Run(lines, vlib.parse_obs(f1 + ".obs"))
                if "dd" in fs and monitors.m_C14(run0):
                    skipped_cycles += 1
                    continue
                c15 = monitors.m_C15(run1) if "dd" in fs else []
                has_dlk = any(e.startswith("DLK") for a in range(run1.nact) for e in run1.ev(run1.last(), a))
                if "dd" in fs and has_dlk and not c15:
                    # every cycle the detector reported consists of unanswered asks (e.g. an actor
                    # asking itself): the program does contain an ask cycle, the property is silent
                    skipped_cycles += 1
                    continue
                if c15 and monitors.classify_stale(None, c15):
                    known.append("stale-edge-after-reply")
                    continue
                diff = [(x, y) for x, y in zip(b0, b1) if x != y][:4]
                viol.append(dict(what="behaviour differs with features %s" % (list(fs),), script=lines, first_differences=diff))
            else:
                compared += 1
            if ok is False and b0 == b1:
                viol.append(dict(what="run with features %s not accepted by the model" % (list(fs),), script=lines,
                                 detail=out[-1500:], suffix=" no-failing-input-found"))
    return dict(violations=viol[:5], known_classes=sorted(set(known)),
                coverage=dict(feature_sets=[list(x) for x in sets], feature_pairs_identical=compared,
                              scripts_with_real_cycles_skipped=skipped_cycles))


def extra_erased(tier, seed):
    """C16: the same scripts run direct and with every operation routed through trait objects."""
    import hashlib as _h
    import gen as _gen
    bins = vlib.build_harness(())
    n = 60 if tier == "quick" else 600
    d = os.path.join(vlib.CACHE, "erased", tier)
    import shutil as _sh
    _sh.rmtree(d, ignore_errors=True)
    os.makedirs(d)
    pairs = []
    import glob as _glob
    corpus = []
    for fam in ("core", "time", "fault"):
        for p in sorted(_glob.glob(os.path.join(vlib.VERIF, "corpus", fam, "*.scn"))):
            if "dd=1" not in open(p).readline() and "metrics=1" not in open(p).readline():
                corpus.append(open(p).read().splitlines())
    scripts = list(corpus)
    for fam in ("core", "time", "fault", "hostile"):
        for i in range(n):
            lines, _ = _gen.gen_script(seed * 7001 + i * 13 + len(fam), fam)
            scripts.append(lines)
    files = []
    for i, lines in enumerate(scripts):
        a = os.path.join(d, "s%04d_direct.scn" % i)
        b = os.path.join(d, "s%04d_erased.scn" % i)
        open(a, "w").write("\n".join(lines) + "\n")
        open(b, "w").write("\n".join([lines[0], "mode erased"] + lines[1:]) + "\n")
        pairs.append((a, b))
        files += [a, b]
    vlib.run_director(bins["director"], files)
    viol, same, acc = [], 0, 0
    res = vlib.accept_many([b for (_, b) in pairs], "C16")
    for (a, b), (ok, st, out) in zip(pairs, res):
        oa, ob = open(a + ".obs").read(), open(b + ".obs").read()
        mon = open(b + ".mon").read().strip()
        if oa != ob:
            la, lb = oa.splitlines(), ob.splitlines()
            diff = [(x, y) for x, y in zip(la, lb) if x != y][:4]
            viol.append(dict(what="erased run differs from the direct run", script=open(a).read().splitlines(), first_differences=diff))
        else:
            same += 1
        if mon:
            viol.append(dict(what="erased-handle monitor", script=open(b).read().splitlines(), failures=mon.splitlines()[:5]))
        if ok:
            acc += 1
        elif ok is False and oa == ob:
            viol.append(dict(what="erased run not accepted by the model", script=open(b).read().splitlines(), detail=out[-1500:], suffix=" no-failing-input-found"))
    return dict(violations=viol[:5], coverage=dict(erased_pairs=len(pairs), erased_identical=same, erased_accepted=acc))


ALLF = ("dd", "metrics", "testutils", "tracing")

PROPS = {
    "C01": dict(
        props_file="Props/C01.v",
        families=[("core", NONE, 150), ("time", NONE, 100), ("fault", NONE, 50), ("exh", NONE, 3), ("core", ALLF, 60), ("multi", ALLF, 40)],
        projection="C01", monitors=["C01"],
        extra=[extra_mt_stress, extra_chan_probe, extra_cancel_probe],
    ),
    "C02": dict(
        props_file="Props/C02.v",
        families=[("core", NONE, 150), ("time", NONE, 100), ("exh", NONE, 3), ("block", NONE, 25), ("core", ALLF, 60), ("multi", ALLF, 40), ("multi", ("dd",), 40)],
        projection="C02", monitors=["C02"],
        extra=[extra_mt_stress, extra_chan_probe, extra_sync_block],
    ),
    "C03": dict(
        props_file="Props/C03.v",
        families=[("fault", NONE, 150), ("multi", NONE, 60), ("core", NONE, 100), ("hostile", NONE, 40), ("exh", NONE, 3), ("core", ALLF, 60), ("multi", ALLF, 40)],
        projection="C03", monitors=["C03"],
        extra=[extra_join_probe, extra_late_push, extra_mt_stress, extra_chan_probe, extra_cancel_probe],
        level_note="Reply integrity and 'the next poll after the target has ended finishes the operation' are proved for every reachable state; that tokio actually wakes the asker (oneshot/channel-close wakers) is runtime behaviour tied only by the correspondence runs to quiescence; ask_join is modelled as a pure function of the ask's result and of how the spawned task ended (value / panic / abort), proved exact (C03_ask_join_exact) and compared with the real crate on every case (join_probe); the task itself and tokio's JoinHandle are exercised, not modelled. On a multi-thread runtime the no-hang clause was violated by a rare race (an envelope pushed after the mailbox had been drained; found by the stress probes, repaired by a fix: commit in /repo, DESIGN.md 7b); the late_push_probe keeps watching for it.",
    ),
    "C07": dict(
        props_file="Props/C07.v",
        families=[("core", NONE, 250), ("hostile", NONE, 50), ("exh", NONE, 3), ("endings", NONE, 1), ("core", ALLF, 60)],
        projection="C07", monitors=["C07"],
        extra=[extra_mt_stress, extra_cancel_probe],
        level_note="Causes of ending, no spontaneous ending and reference accounting are proved; 'eventually ends' is proved as a ranking argument (the rank never rises, every enabled step of the actor lowers it or enters on_stop, a step is enabled unless the hook is blocked); that an enabled step is eventually taken is the fairness of the tokio scheduler (a woken task is eventually polled), which is outside the model (partial).",
    ),
    "C11": dict(
        props_file="Props/C11.v",
        families=[("core", NONE, 200), ("hostile", NONE, 50), ("fault", NONE, 50), ("exh", NONE, 3), ("core", ALLF, 60)],
        projection="C11", monitors=["C11"],
        extra=[extra_id_stress, extra_mt_stress],
    ),
    "C12": dict(
        props_file="Props/C12.v",
        families=[("multi", NONE, 150), ("multi", ("dd",), 150), ("fault", NONE, 100)],
        projection="C12", monitors=["C03", "C04", "C05", "C11", "C12"],
        extra=[extra_dd_probe, extra_mt_stress_feat, extra_id_stress],
    ),
    "C08": dict(
        props_file="Props/C08.v",
        families=[("core", NONE, 200), ("fault", NONE, 100), ("exh", NONE, 3), ("endings", NONE, 1), ("core", ALLF, 60)],
        projection="C08", monitors=["C08"],
        level_note="The order theorem is about the mailbox as polled in the same pass; a message arriving between the mailbox poll and the on_run poll of one pass on a multi-thread runtime is outside the model (partial). Trusted base as for the other checks.",
    ),
    "C09": dict(
        props_file="Props/C09.v",
        families=[("core", NONE, 150), ("time", NONE, 100), ("hostile", NONE, 50), ("exh", NONE, 3), ("block", NONE, 25), ("core", ALLF, 60)],
        projection="C09", monitors=["C09"],
        extra=[extra_config_probe, extra_chan_probe, extra_sync_block],
    ),
    "C10": dict(
        props_file="Props/C10.v",
        families=[("time", NONE, 250), ("core", NONE, 50), ("block", NONE, 20)],
        projection="C10", monitors=["C10"],
        extra=[extra_lazy_probe, extra_cancel_probe],
        level_note="Async variants: proved on the model's virtual clock and checked on tokio's paused clock. That tokio's timer wakes the task at the deadline, and the wall-clock behaviour of the blocking variants' helper thread, are runtime facts outside the model (partial).",
    ),
    "C13": dict(
        props_file="Props/C13.v",
        families=[("time", ("testutils",), 150), ("fault", ("testutils",), 100), ("core", NONE, 50), ("block", NONE, 25),
                  ("time:erased", ("testutils",), 100), ("fault:erased", ("testutils",), 50)],
        projection="C13", monitors=["C13"],
        extra=[extra_mt_stress_feat],
    ),
    "C14": dict(
        props_file="Props/C14.v",
        families=[("multi", ("dd",), 300)],
        projection="C14", monitors=["C14"],
        extra=[extra_dd_race],
        level_note="Proved for every reachable state: the walk is exact for every graph and cycle length, every unfinished ask begun by a hook is tracked and has its edge (keys unique), hence any chain of such asks leading back to the asker makes the ask panic (C14_complete_run; premise: fewer than 2^64-1 spawns, so ids are unique). 'Sequential' is built into the model: a hook awaits at most one operation at a time; concurrent asks from one hook (join!) are outside it. The real graph is also read through the --cfg rsactor_verif hook at every quiescent point and compared.",
    ),
    "C15": dict(
        props_file="Props/C15.v",
        families=[("multi", ("dd",), 300)],
        projection="C15", monitors=["C15"],
        extra=[extra_dd_probe, extra_mt_stress_feat],
        classify=monitors.classify_stale,
        level_text="The full statement is refuted in the model by a closed witness (C15_refuted) that replays on the real code (known finding, KNOWN_FINDINGS.txt). Proved for every reachable state (ids unique): a detection panic implies a chain of tracked edges; every tracked edge is an operation begun by the running hook of the key's actor that has not yet returned to it (so the only unsoundness is an answered-but-not-yet-resumed ask); non-actor callers are never tracked; no residue - the graph is empty once every operation has returned, and an actor whose hook awaits nothing has no edge. The real wait-for graph is compared with the model's at every quiescent point through the verification hook.",
        level_note="Partial only in that the property as stated is false of the code (known finding); everything else is an invariant proof plus correspondence.",
    ),
    "C16": dict(
        props_file="Props/C16.v",
        families=[("core", NONE, 60)],
        projection="C16", monitors=["C04", "C05", "C11"],
        extra=[extra_erased, extra_lazy_probe],
        level_text="Translation + proof + correspondence: the table of forwarders and conversions is regenerated from the source on every run and proved verbatim / complete in Coq (Props/C16.v); the same director scripts are run direct and with every operation routed through TellHandler / AskHandler / ActorControl and their weak variants (built via From, Box::new, clone_boxed, downgrade, upgrade, as_control, as_weak_control): observations must be identical and accepted by the model.",
    ),
    "C17": dict(
        props_file="Props/C17.v",
        families=[("block", NONE, 40), ("core", NONE, 30)],
        thorough_scale=8,
        projection="full", monitors=["C01", "C02", "C03", "C09", "C10", "C13"],
        extra=[extra_sync_block],
        level_text="Proof (model) + bounded observation on real threads: blocking and deprecated calls are desugared to the same operation futures (theorems of C01-C03, C09, C10, C13 quantify over the send path); real rsactor is driven on a multi-thread runtime with std threads / spawn_blocking / calls inside the runtime, wall-clock ticks of 800 ms, and every round is accepted by the model (results, order, dead-letter labels, which calls are still blocked).",
        level_note="Partial: thread blocking, the helper thread and its private runtime, and wall-clock bounds are runtime behaviour the model cannot exhibit; they are checked by observation with margins (a mismatching real-time script is re-run twice before it counts).",
    ),
    "C18": dict(
        props_file="Props/C18.v",
        families=[("core", ("dd", "metrics", "testutils", "tracing"), 60)],
        projection="C18", monitors=["C04", "C05"],
        extra=[extra_features, extra_dd_probe],
    ),
    "C19": dict(
        props_file="Props/C19.v",
        families=[("core", NONE, 60)],
        projection="C04", monitors=["C04"],
        extra=[extra_macro_corpus],
        level_text="The macro's decision table is proved for every signature/attribute in the Coq model (Props/C19.v); the model is tied to the real proc macros by compiling and running a generated corpus crate (positive cases, hand-written on_tell_result counters, derive cases, compile-fail negatives) and comparing every case with the extracted decide function; the run-time half (on_tell_result once per tell, never per ask) is a theorem about the actor loop model, tied by the director scripts.",
        level_note="rustc and the macro expansion are exercised, not modelled; the corpus is finite (the table theorem is not).",
    ),
    "C20": dict(
        props_file="Props/C20.v",
        families=[("core", ("metrics",), 150), ("fault", ("metrics",), 100), ("endings", ("metrics",), 1)],
        projection="C20", monitors=["C04", "C20"],
        extra=[extra_metrics_probe, extra_mt_stress_feat],
        level_note="Counts are proved and compared exactly; real durations are wall-clock values compared by inequality only (max >= a handler's own measured time, avg <= max, snapshot = accessors) - partial for the duration clauses.",
    ),
    "C04": dict(
        props_file="Props/C04.v",
        families=[("core", NONE, 150), ("fault", NONE, 150), ("exh", NONE, 3), ("endings", NONE, 1), ("core", ALLF, 60)],
        projection="C04", monitors=["C04", "C06"],
        extra=[extra_mt_stress],
    ),
    "C05": dict(
        props_file="Props/C05.v",
        families=[("core", NONE, 150), ("fault", NONE, 150), ("exh", NONE, 3), ("endings", NONE, 1), ("core", ALLF, 60)],
        projection="C05", monitors=["C05"],
        extra=[extra_result_table, extra_mt_stress],
    ),
    "C06": dict(
        props_file="Props/C06.v",
        families=[("core", NONE, 150), ("fault", NONE, 100), ("hostile", NONE, 50), ("exh", NONE, 3), ("endings", NONE, 1), ("core", ALLF, 60)],
        projection="C06", monitors=["C06", "C04"],
        extra=[extra_cancel_probe],
    ),
}

# not registered in MANIFEST: everything at once, for testing the machinery against seeded changes
DEV = {
    "DD": dict(
        props_file="Props/C12.v",
        families=[("multi", ("dd",), 300)],
        projection="full", monitors=["C03", "C04", "C05"],
    ),
    "ALL": dict(
        props_file="Props/C04.v",
        families=[("core", NONE, 150), ("time", NONE, 100), ("fault", NONE, 150), ("hostile", NONE, 50)],
        projection="full", monitors=["C01", "C02", "C03", "C04", "C05", "C06", "C07", "C08", "C09", "C10", "C11", "C13"],
    ),
}
PROPS_ALL = dict(PROPS, **DEV)

NOT_YET = {}
