"""Property table: which theorems, script families, projection and monitors decide each property."""
import os
import sys

sys.path.insert(0, os.path.dirname(__file__))
import vlib

NONE = ()


def extra_result_table(tier, seed):
    """C05: all 18 ActorResult shapes x every query method / conversion, real vs model (exhaustive)."""
    bins = vlib.build_harness((), bins=("director", "result_enum"))
    real = vlib.sh([bins["result_enum"]], check=True).stdout.splitlines()
    model = vlib.sh([vlib.DRIVER, "--result-table"], check=True).stdout.splitlines()
    extra_real = [l for l in real if l.startswith("retryable ") and l.split()[1] in ("downcast", "runtime", "mailbox_capacity")]
    real_cmp = [l for l in real if l not in extra_real]
    viol = []
    for r, m in zip(real_cmp, model):
        if r != m:
            viol.append(dict(what="ActorResult accessor table differs", real=r, model=m))
    if len(real_cmp) != len(model):
        viol.append(dict(what="accessor table length differs", real=len(real_cmp), model=len(model)))
    for l in extra_real:
        if not l.endswith(" 0"):
            viol.append(dict(what="non-timeout error reported retryable", real=l))
    return dict(violations=viol, coverage=dict(accessor_rows=len(real_cmp), accessor_table_exhaustive=True,
                                               accessor_sample=real_cmp[:2]))


PROPS = {
    "C04": dict(
        props_file="Props/C04.v",
        families=[("core", NONE, 150), ("fault", NONE, 150)],
        projection="C04", monitors=["C04"],
    ),
    "C05": dict(
        props_file="Props/C05.v",
        families=[("core", NONE, 150), ("fault", NONE, 150)],
        projection="C05", monitors=["C05"],
        extra=[extra_result_table],
    ),
    "C06": dict(
        props_file="Props/C06.v",
        families=[("core", NONE, 150), ("fault", NONE, 100), ("hostile", NONE, 50)],
        projection="C06", monitors=["C06"],
    ),
}

# not registered in MANIFEST: everything at once, for testing the machinery against seeded changes
DEV = {
    "ALL": dict(
        props_file="Props/C04.v",
        families=[("core", NONE, 150), ("time", NONE, 100), ("fault", NONE, 150), ("hostile", NONE, 50)],
        projection="full", monitors=["C01", "C02", "C03", "C04", "C05", "C06", "C07", "C08", "C09", "C10", "C11", "C13"],
    ),
}
PROPS_ALL = dict(PROPS, **DEV)

NOT_YET = {}
