"""Property table: which theorems, script families, projection and monitors decide each property."""

NONE = ()

PROPS = {
    "C06": dict(
        props_file="Props/C06.v",
        families=[("core", NONE, 150), ("fault", NONE, 100), ("hostile", NONE, 50)],
        projection="C06", monitors=["C06"],
    ),
}

NOT_YET = {}
